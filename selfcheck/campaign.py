#!/venv/bin/python
"""
Mutation campaign: each mutant in selfcheck/mutants.json is a literal replacement in one file of gffutils; it is
applied to a scratch copy of the package (outside /repo and /verif), the repository's own tests are run on it
(a mutant that fails them is 'not realistic' and recorded as such), then the owning check(s) are run against it via
GFFUTILS_REPO.  Result -> selfcheck/matrix.json.   usage: campaign.py [-k substring] [--tier quick] [--skip-tests]
"""
import argparse, json, os, shutil, subprocess, sys, tempfile, time

HERE = os.path.dirname(os.path.abspath(__file__))
VERIF = os.path.dirname(HERE)
REPO = "/repo"


def run_tests(root):
    cmd = ["/venv/bin/python", "-m", "pytest", "-q", "-p", "no:cacheprovider", "--timeout=900",
           "--continue-on-collection-errors", "-x", "--deselect", "gffutils/test/test_biopython_integration.py::test_roundtrip",
           "--deselect", "gffutils/test/test_cli.py::test_issue_224", "--ignore", "gffutils/test/test_1.py"]
    env = dict(os.environ, PYTHONPATH=root, PYTHONDONTWRITEBYTECODE="1")
    p = subprocess.run(cmd, cwd=root, env=env, stdout=subprocess.PIPE, stderr=subprocess.STDOUT, text=True, timeout=900)
    tail = p.stdout.strip().splitlines()[-1] if p.stdout.strip() else ""
    return p.returncode == 0, tail


def main():
    ap = argparse.ArgumentParser()
    ap.add_argument("-k", default="")
    ap.add_argument("--tier", default="quick")
    ap.add_argument("--skip-tests", action="store_true")
    a = ap.parse_args()
    muts = json.load(open(os.path.join(HERE, "mutants.json")))
    out_path = os.path.join(HERE, "matrix.json")
    matrix = json.load(open(out_path)) if os.path.exists(out_path) else {}
    for m in muts:
        if a.k and a.k not in m["id"] and a.k not in m["checks"]:
            continue
        root = tempfile.mkdtemp(prefix="gvmut-", dir="/tmp")
        try:
            shutil.copytree(os.path.join(REPO, "gffutils"), os.path.join(root, "gffutils"),
                            ignore=shutil.ignore_patterns("__pycache__", "*.db"))
            path = os.path.join(root, m["file"])
            src = open(path).read()
            if m.get("replace_all") and src.count(m["old"]) >= 1:
                pass
            elif src.count(m["old"]) != 1:
                print("%-40s SKIP: pattern occurs %d times" % (m["id"], src.count(m["old"])))
                matrix[m["id"]] = {"status": "pattern-mismatch"}
                continue
            open(path, "w").write(src.replace(m["old"], m["new"]))
            entry = {"property": m["checks"], "what": m["what"], "file": m["file"]}
            if not a.skip_tests:
                ok, tail = run_tests(root)
                entry["repo_tests_pass"] = ok
                entry["repo_tests_tail"] = tail
            res = {}
            for pid in m["checks"]:
                t0 = time.time()
                env = dict(os.environ, GFFUTILS_REPO=root, VERIF_EVIDENCE_DIR=os.path.join(root, "evidence"))
                p = subprocess.run([os.path.join(VERIF, "bin", "check"), pid, "--tier", a.tier], env=env,
                                   stdout=subprocess.PIPE, stderr=subprocess.STDOUT, text=True)
                viol = [l for l in p.stdout.splitlines() if l.startswith("VIOLATION")]
                res[pid] = {"exit": p.returncode, "violation_lines": len(viol), "wall_s": round(time.time() - t0, 1),
                            "caught": p.returncode == 1 and len(viol) > 0}
            entry["checks"] = res
            matrix[m["id"]] = entry
            print("%-40s tests_pass=%s  %s" % (m["id"], entry.get("repo_tests_pass"),
                  " ".join("%s:%s" % (k, "CAUGHT" if v["caught"] else "missed(exit %d)" % v["exit"]) for k, v in res.items())))
            sys.stdout.flush()
        finally:
            shutil.rmtree(root, ignore_errors=True)
        json.dump(matrix, open(out_path, "w"), indent=1, sort_keys=True)


if __name__ == "__main__":
    main()
